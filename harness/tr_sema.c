// L-trace + L-api harness for dispatch_semaphore (C08): signallers and waiters (forever / timed / polling) on one
// semaphore of the hooked library with perturbation at its atomic sites. Oracle: successful waits never exceed
// v + signals started; non-zero only after the full timeout; at the end exactly v + signals - successes permits are
// obtainable; forever-waiters are all released once enough signals have been issued. All dsema_value transitions recorded.
// usage: tr_sema <seed> <threads> <ops> <initial value>
#define _GNU_SOURCE
#include <dispatch/dispatch.h>
#include <stdio.h>
#include <stdint.h>
#include <stdlib.h>
#include <unistd.h>
#include <pthread.h>
#include <sched.h>
#include <stdatomic.h>
#include <time.h>
#include <sys/syscall.h>
typedef void (*cb_t)(const volatile void *addr, unsigned size, int op, uint64_t o, uint64_t n, const char *func, int line);
extern cb_t _dispatch_verif_atomic_cb;
extern void (*_dispatch_verif_yield_cb)(const volatile void *addr, const char *func, int line);
static dispatch_semaphore_t S;
typedef struct { uint64_t seq; int tid; int off; unsigned size; int op; uint64_t o, n; const char *func; int line; } ev_t;
#define MAXEV (1<<21)
static ev_t *evs; static atomic_ulong nev, seq;
static __thread int mytid; static __thread uint64_t rng; static uint64_t seed;
static inline uint64_t rnd(void){ if(!rng) rng = seed ^ (uint64_t)syscall(SYS_gettid)*0x9e3779b97f4a7c15ull; rng ^= rng<<13; rng ^= rng>>7; rng ^= rng<<17; return rng; }
static void cb(const volatile void *addr, unsigned size, int op, uint64_t o, uint64_t n, const char *func, int line){
  long d = (char*)addr - (char*)S; if (d < 0 || d >= 96) return;
  if (!mytid) mytid = (int)syscall(SYS_gettid);
  unsigned long k = atomic_fetch_add(&nev,1); if (k>=MAXEV) return;
  evs[k] = (ev_t){ atomic_fetch_add(&seq,1), mytid, (int)d, size, op, o, n, func, line }; }
static void ycb(const volatile void *addr, const char *func, int line){ (void)func;(void)line;
  long d = (char*)addr - (char*)S; if (d < 0 || d >= 96) return; uint64_t r = rnd()%12; if (r==0) sched_yield(); else if (r==1) usleep(rnd()%40); }
static uint64_t now_ns(void){ struct timespec ts; clock_gettime(CLOCK_MONOTONIC,&ts); return (uint64_t)ts.tv_sec*1000000000ull+(uint64_t)ts.tv_nsec; }
static atomic_int viol; static char vmsg[300];
static void fail(const char *m, long a, long b, long c){ if(!atomic_exchange(&viol,1)) snprintf(vmsg,sizeof vmsg,"%s %ld %ld %ld",m,a,b,c); }
static int nops; static long init; static atomic_long okw, tmo, sigStarted, sigDone, forever_waiting; static atomic_int clients_done, clients_release;
static void *client(void *a){ long role = (long)a;
  for (int i=0;i<nops && !viol;i++){
    if (role % 2 == 0) { atomic_fetch_add(&sigStarted,1); dispatch_semaphore_signal(S); atomic_fetch_add(&sigDone,1); if (rnd()%3==0) usleep(rnd()%60); }
    else { int k = (int)(rnd()%3); uint64_t to = k==0 ? 0 : rnd()%300000;
      uint64_t t0=now_ns();       // read BEFORE the deadline is computed: the deadline is then at least t0 + to (a preemption between the two lines only makes the wait look longer)
      dispatch_time_t t = k==0 ? DISPATCH_TIME_NOW : dispatch_time(DISPATCH_TIME_NOW,(int64_t)to);
      long r=dispatch_semaphore_wait(S,t); uint64_t t1=now_ns();
      if (r==0){ long s=atomic_fetch_add(&okw,1)+1; long sg=atomic_load(&sigStarted); if(s>init+sg) fail("more successful waits than initial value + signals started: successes/signals",s,sg,init); }
      else { atomic_fetch_add(&tmo,1); if(t1-t0<to) fail("dispatch_semaphore_wait returned non-zero before its timeout elapsed: ns early",(long)(to-(t1-t0)),0,0); } } }
  atomic_fetch_add(&clients_done,1); while(!atomic_load(&clients_release)) usleep(200);   // stay alive while the pinger may still signal this thread
  return NULL; }
static void *fw(void *a){ (void)a; atomic_fetch_add(&forever_waiting,1); dispatch_semaphore_wait(S,DISPATCH_TIME_FOREVER); atomic_fetch_add(&okw,1); atomic_fetch_sub(&forever_waiting,1); return NULL; }
// interruptions: a handler installed without SA_RESTART runs on the client threads while they sit in the kernel wait; an interrupted
// timed wait must resume waiting for the rest of its timeout (EINTR is neither a timeout nor a signal of the semaphore)
#include <signal.h>
static void on_usr1(int s){ (void)s; }
static pthread_t cth[64]; static int ncth; static atomic_int pinger_stop;
static void *pinger(void *a){ (void)a; while(!atomic_load(&pinger_stop)){ for(int i=0;i<ncth;i++) pthread_kill(cth[i],SIGUSR1); usleep(300); } return 0; }
// no call returned for 20 s while clients are still inside their loops: a wait with a finite timeout never returned, or a permit was lost
static atomic_int wd_off;
static void *watchdog(void *a){ (void)a; long last=-1; int same=0; for(;;){ usleep(200000); if(atomic_load(&wd_off)) return 0; long d=atomic_load(&okw)+atomic_load(&tmo)+atomic_load(&sigDone);
  if(d==last) same++; else same=0; last=d; if(same>=100){ printf("STUCK no dispatch_semaphore_wait / signal call returned for 20 s (a timed wait never came back, or a waiter was never released): successes %ld timeouts %ld signals %ld\n",atomic_load(&okw),atomic_load(&tmo),atomic_load(&sigDone)); fflush(stdout); _exit(3); } } return 0; }
// ---- forced history: a waiter asleep, the signal that takes the slow path (count -1 -> 0) is held before it posts, a second signal
// (0 -> 1, fast path) returns meanwhile, the first one goes on: the sleeping waiter must be released ("no lost signal") and the
// second permit stays obtainable.
static dispatch_semaphore_t FS; static atomic_int fs_arm, fs_held, fs_go; static pthread_t fs_main;
static void fscb(const volatile void *addr, unsigned size, int op, uint64_t o, uint64_t n, const char *func, int line){ (void)addr;(void)size;(void)op;(void)o;(void)line;
  if(strcmp(func,"dispatch_semaphore_signal") || (long)n>0) return;            // the increment that found a waiter
  if(atomic_exchange(&fs_arm,0)){ atomic_store(&fs_held,1); for(int w=0; w<20000 && !atomic_load(&fs_go); w++) usleep(50); } }
static void *fs_waiter(void *a){ _Atomic int *got=a; if(dispatch_semaphore_wait(FS,DISPATCH_TIME_FOREVER)==0) atomic_store(got,1); return 0; }
static void *fs_signal1(void *a){ (void)a; dispatch_semaphore_signal(FS); return 0; }
static int forced_two_signals(void){ for(int r=0;r<3;r++){ FS=dispatch_semaphore_create(0); _Atomic int got=0; pthread_t w, s1;
    pthread_create(&w,0,fs_waiter,&got); usleep(5000);                        // the waiter is asleep (count -1)
    atomic_store(&fs_held,0); atomic_store(&fs_go,0); _dispatch_verif_atomic_cb=fscb; atomic_store(&fs_arm,1);
    pthread_create(&s1,0,fs_signal1,0); for(int k=0;k<4000 && !atomic_load(&fs_held);k++) usleep(50);
    dispatch_semaphore_signal(FS);                                            // second signal: fast path
    atomic_store(&fs_go,1); pthread_join(s1,0); _dispatch_verif_atomic_cb=0;
    for(int k=0;k<3000 && !atomic_load(&got);k++) usleep(1000);
    if(!atomic_load(&got)){ printf("ORACLE VIOL seed=%llu a waiter blocked without timeout was not released although two signals had been issued (the one that found it waiting was overtaken by a second one before it posted): round %d, first signal was held %d\n",(unsigned long long)seed,r,atomic_load(&fs_held)); fflush(stdout); return 1; }
    pthread_join(w,0);
    if(dispatch_semaphore_wait(FS,dispatch_time(DISPATCH_TIME_NOW,1000000000ll))){ printf("ORACLE VIOL seed=%llu two signals for one waiter: the second permit was not obtainable afterwards: round %d\n",(unsigned long long)seed,r); fflush(stdout); return 1; }
    dispatch_release(FS); }
  return 0; }
// ---- forced history: a waiter blocked without timeout is hit by signals (handler installed without SA_RESTART): it is not released by
// them ("the number of waits that returned zero is at most v plus the signals started"), one signal releases it, no permit is left.
static void fs_usr1(int sig){ (void)sig; }
static int forced_interrupted_wait(void){ struct sigaction sa; memset(&sa,0,sizeof sa); sa.sa_handler=fs_usr1; sigaction(SIGUSR1,&sa,0);
  for(int r=0;r<2;r++){ FS=dispatch_semaphore_create(0); _Atomic int got=0; pthread_t w; pthread_create(&w,0,fs_waiter,&got); usleep(5000);
    for(int k=0;k<4;k++){ pthread_kill(w,SIGUSR1); usleep(3000); }
    if(atomic_load(&got)){ printf("ORACLE VIOL seed=%llu a dispatch_semaphore_wait without timeout on a semaphore created with 0 returned zero although no signal had been issued (it was interrupted by a signal handler): round %d\n",(unsigned long long)seed,r); fflush(stdout); return 1; }
    dispatch_semaphore_signal(FS); for(int k=0;k<3000 && !atomic_load(&got);k++) usleep(1000);
    if(!atomic_load(&got)){ printf("ORACLE VIOL seed=%llu a waiter blocked without timeout was not released by a signal after it had been interrupted by signal handlers: round %d\n",(unsigned long long)seed,r); fflush(stdout); return 1; }
    pthread_join(w,0);
    if(dispatch_semaphore_wait(FS,DISPATCH_TIME_NOW)==0){ printf("ORACLE VIOL seed=%llu one signal, one released waiter, and a permit was still obtainable afterwards: round %d\n",(unsigned long long)seed,r); fflush(stdout); return 1; }
    dispatch_release(FS); }
  return 0; }
int main(int argc, char **argv){
  seed = argc>1 ? strtoull(argv[1],0,0) : 1; int nthr = argc>2 ? atoi(argv[2]) : 4; nops = argc>3 ? atoi(argv[3]) : 300; init = argc>4 ? atol(argv[4]) : 2;
  if(forced_two_signals()) return 1;
  if(forced_interrupted_wait()) return 1;
  evs = calloc(MAXEV, sizeof(ev_t)); S = dispatch_semaphore_create(init);
  _dispatch_verif_yield_cb = ycb; _dispatch_verif_atomic_cb = cb;
  struct sigaction sa; memset(&sa,0,sizeof sa); sa.sa_handler=on_usr1; sigaction(SIGUSR1,&sa,0);
  for (long i=0;i<nthr;i++) pthread_create(&cth[i],0,client,(void*)i);
  ncth=nthr; pthread_t pg; int ping = argc>5 ? atoi(argv[5]) : 1; if(ping) pthread_create(&pg,0,pinger,0);
  pthread_t wd; pthread_create(&wd,0,watchdog,0);
  while(atomic_load(&clients_done)<nthr) usleep(500);
  atomic_store(&wd_off,1);
  atomic_store(&pinger_stop,1); if(ping) pthread_join(pg,0); ncth=0; atomic_store(&clients_release,1);
  for (int i=0;i<nthr;i++) pthread_join(cth[i],0);
  // conservation: drain what is left by polling
  long expect = init + atomic_load(&sigDone) - atomic_load(&okw); long got=0;
  if(!viol){ if(expect<0) fail("more successes than permits at the end: expected remaining",expect,0,0);
    else { while(got<=expect+2 && dispatch_semaphore_wait(S,DISPATCH_TIME_NOW)==0) got++; if(got!=expect) fail("permits remaining after all calls finished != v + signals - successful waits: got/expected",got,expect,0); } }
  // forever waiters: m blocked threads are released by exactly m signals
  if(!viol){ int m=3+(int)(rnd()%4); pthread_t f[8]; atomic_store(&okw,0); for(int i=0;i<m;i++) pthread_create(&f[i],0,fw,0);
    for(int w=0; w<2000 && atomic_load(&forever_waiting)<m; w++) usleep(1000); usleep(2000);
    for(int i=0;i<m;i++){ dispatch_semaphore_signal(S); if(rnd()%2) usleep(rnd()%200); }
    int ok=0; for(int w=0; w<5000; w++){ if(atomic_load(&okw)==m){ ok=1; break; } usleep(1000); }
    if(!ok) fail("a waiter blocked without timeout was not released although enough signals arrived: released/needed",atomic_load(&okw),m,0);
    else { for(int i=0;i<m;i++) pthread_join(f[i],0); if(dispatch_semaphore_wait(S,DISPATCH_TIME_NOW)==0) fail("a permit was left over after m signals released m waiters",0,0,0); }
    for(long i=0;i<init;i++) dispatch_semaphore_signal(S); }   // restore the creation value so that dispose accepts it
  _dispatch_verif_atomic_cb = 0; _dispatch_verif_yield_cb = 0;
  unsigned long n = atomic_load(&nev); if (n>MAXEV) n=MAXEV;
  printf("OFF state 48\n");
  if(viol) printf("ORACLE VIOL seed=%llu %s\n",(unsigned long long)seed,vmsg); else printf("ORACLE ok items=%ld events=%lu timeouts=%ld\n", atomic_load(&sigDone), n, atomic_load(&tmo));
  for (unsigned long i=0;i<n;i++){ ev_t *e=&evs[i]; printf("E %lu %d %d %u %d %016lx %016lx %s %d\n", e->seq, e->tid, e->off, e->size, e->op, e->o, e->n, e->func, e->line); }
  return viol?1:0; }
