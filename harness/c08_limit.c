// C08 at the upper limit of the permit counter: a semaphore created with LONG_MAX (a legal value), one permit taken and given back, then
// one signal too many. The source guards the counter (a signal that would take it past LONG_MAX is a client crash, "Unbalanced call to
// dispatch_semaphore_signal()"): the history is then refused inside the signal call, which is accepted. What is not accepted: the call
// returns and the counter has wrapped - the permits are gone, and a later wait (even a poll with DISPATCH_TIME_NOW, which may never
// block) sleeps for ever. Each case runs in a forked child that reports its progress through a pipe.
// usage: c08_limit
#define _GNU_SOURCE
#include <dispatch/dispatch.h>
#include <limits.h>
#include <stdio.h>
#include <stdlib.h>
#include <string.h>
#include <unistd.h>
#include <signal.h>
#include <sys/wait.h>
static int wfd; static void mark(char c){ if(write(wfd,&c,1)!=1){} }
static void child(int extra){ dispatch_semaphore_t s=dispatch_semaphore_create(LONG_MAX); if(!s){ mark('n'); _exit(0); }
  if(dispatch_semaphore_wait(s,DISPATCH_TIME_NOW)) { mark('p'); _exit(0); }        // LONG_MAX - 1
  dispatch_semaphore_signal(s); mark('a');                                           // back at LONG_MAX
  for(int i=0;i<extra;i++) dispatch_semaphore_signal(s);                             // one (or two) too many: refused by a client crash - or wrapped
  mark('S');
  alarm(5);                                                                          // a poll that blocks is killed by SIGALRM
  long r=dispatch_semaphore_wait(s,DISPATCH_TIME_NOW); mark(r==0?'W':'T');
  r=dispatch_semaphore_wait(s,dispatch_time(DISPATCH_TIME_NOW,1000000)); mark(r==0?'W':'T');
  _exit(0); }
int main(void){ long items=0;
  for(int extra=0; extra<3; extra++){ int pf[2]; if(pipe(pf)) return 2; fflush(stdout); pid_t pid=fork();
    if(pid==0){ close(pf[0]); wfd=pf[1]; child(extra); _exit(0); }
    close(pf[1]); char m[16]; int n=0; char c; while(n<15 && read(pf[0],&c,1)==1) m[n++]=c; m[n]=0; close(pf[0]); int st; waitpid(pid,&st,0); int sig=WIFSIGNALED(st)?WTERMSIG(st):0; items++;
    const char *what=NULL;
    if(!strchr(m,'a')) what="a semaphore created with LONG_MAX could not be polled and signalled once";
    else if(extra==0 && strcmp(m,"aSWW")) what="with the counter at LONG_MAX two polls did not both succeed";
    else if(extra>0 && strchr(m,'S') && sig==SIGALRM) what="a signal beyond LONG_MAX returned (the counter wrapped) and a later poll with DISPATCH_TIME_NOW blocked for 5 s: the permits have become unobtainable";
    else if(extra>0 && strchr(m,'S') && (sig || strchr(m,'T'))) what="a signal beyond LONG_MAX returned (the counter wrapped) and later waits failed or trapped although more than LONG_MAX permits had been given";
    else if(extra>0 && strchr(m,'S') && !sig) what=NULL;          // returned and the waits succeeded: fine as well
    if(what){ printf("ORACLE VIOL %s (signals beyond LONG_MAX: %d, progress %s, signal %d)\n",what,extra,m,sig); return 1; } }
  printf("ORACLE ok items=%ld\n",items); return 0; }
