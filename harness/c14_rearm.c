// C14 oracle for the readiness source of a descriptor's stream under stop: reads of two channels on the read end of a pipe whose
// data arrives in small pieces (so operations keep having to wait), the first channel stopped while its reads are in flight, the
// second channel's reads enqueued right behind the stop. The stream's handler can then be asked for twice (once when an operation
// completed with another one queued, once when the list had emptied and the next operation arrived); the readiness source must
// be armed once.
// Oracle: every read's handler sees done exactly once, reads of the stopped channel complete with their data or ECANCELED, reads
// of the second channel deliver exactly the bytes written for them (in order), the cleanup handlers run, nothing traps or hangs.
// usage: c14_rearm <seed> <iterations>
#define _GNU_SOURCE
#include <dispatch/dispatch.h>
#include <stdio.h>
#include <stdint.h>
#include <stdlib.h>
#include <string.h>
#include <errno.h>
#include <unistd.h>
#include <fcntl.h>
#include <signal.h>
#include <stdatomic.h>
#include <pthread.h>
#include <time.h>
static uint64_t seed, rs; static uint64_t rnd(void){ rs += 0x9E3779B97F4A7C15ull; uint64_t z=rs; z=(z^(z>>30))*0xBF58476D1CE4E5B9ull; z=(z^(z>>27))*0x94D049BB133111EBull; return z^(z>>31); }
static atomic_int viol; static char vmsg[300];
static void fail(const char *m, long a, long b, long c){ if(!atomic_exchange(&viol,1)) snprintf(vmsg,sizeof vmsg,"%s %ld %ld %ld",m,a,b,c); }
static volatile int g_it;
// ---- the readiness source of the read stream: every successful suspension / resumption of it (compare-and-swap of _dispatch_lane_suspend /
// _dispatch_lane_resume on its dq_state) is recorded from the moment its address is known (it exists and is armed then) and
// replayed through StreamP.srcReplay (dvdriver streamsrc): the transitions alternate.
extern dispatch_source_t _dispatch_verif_io_stream_source(dispatch_io_t channel, int direction);
extern volatile void *_dispatch_verif_queue_state_addr(dispatch_queue_t dq);
#define MAXT (1<<18)
static struct { int it; char k; } tlog[MAXT]; static atomic_ulong ntl; static volatile void *SRC;
static void src_rec(const volatile void *addr, int op, const char *func){ if(addr!=SRC || !SRC || op!=3) return;
  char k = !strcmp(func,"_dispatch_lane_suspend") ? 's' : !strcmp(func,"_dispatch_lane_resume") ? 'r' : 0; if(!k) return;
  unsigned long i=atomic_fetch_add(&ntl,1); if(i<MAXT){ tlog[i].it=g_it; tlog[i].k=k; } }
static void src_watch(dispatch_io_t ch){ dispatch_source_t s=_dispatch_verif_io_stream_source(ch,0); SRC = s ? _dispatch_verif_queue_state_addr((dispatch_queue_t)s) : NULL;
  if(SRC){ unsigned long i=atomic_fetch_add(&ntl,1); if(i<MAXT){ tlog[i].it=g_it; tlog[i].k='A'; } } }       // 'A': recording begins
// the thread that runs the stream's handler for a fired readiness source is delayed for a moment when it suspends the source (its
// first step): the stop and the second channel's reads are then queued behind it before it asks for the handler again
typedef void (*cb_t)(const volatile void *addr, unsigned size, int op, uint64_t o, uint64_t n, const char *func, int line);
extern cb_t _dispatch_verif_atomic_cb; static __thread uint64_t trng; static pthread_t main_th; static atomic_long holds;
static void cb(const volatile void *addr, unsigned size, int op, uint64_t o, uint64_t n, const char *func, int line){ (void)size;(void)o;(void)n;(void)line; src_rec(addr,op,func);
  if(op!=3 || strcmp(func,"_dispatch_lane_suspend") || pthread_equal(pthread_self(),main_th)) return;
  if(!trng) trng=0x9e3779b97f4a7c15ull^(uint64_t)(uintptr_t)&trng; trng^=trng<<13; trng^=trng>>7; trng^=trng<<17;
  (void)trng; }
static void on_crash(int sig){ char b[260]; int n=snprintf(b,sizeof b,"ORACLE VIOL seed=%llu the library trapped or crashed (signal %d) while reads of two channels waited on one pipe and the first channel was stopped (its own over-resume / over-release check): iteration %d\n",(unsigned long long)seed,sig,g_it); if(n>0) (void)!write(1,b,(size_t)n); if(getenv("REARM_CORE")){ signal(sig,SIG_DFL); return; } _exit(1); }
#define NOP 8
struct op { _Atomic int done, calls_after_done; _Atomic long bytes; _Atomic int err; };
static long iteration(int it){ int p[2]; if(pipe(p)) return 0; g_it=it; fcntl(p[1],F_SETFL,O_NONBLOCK);
  dispatch_queue_t hq=dispatch_queue_create("h",NULL), cq=dispatch_queue_create("c",NULL); dispatch_semaphore_t cs=dispatch_semaphore_create(0);
  dispatch_io_t A=dispatch_io_create(DISPATCH_IO_STREAM,p[0],cq,^(int e){ (void)e; dispatch_semaphore_signal(cs); });
  dispatch_io_t B=dispatch_io_create(DISPATCH_IO_STREAM,p[0],cq,^(int e){ (void)e; dispatch_semaphore_signal(cs); });
  dispatch_io_set_low_water(A,1); dispatch_io_set_low_water(B,1);
  struct op *O=calloc(NOP,sizeof *O); int na=1+(int)(rnd()%3), nb=1+(int)(rnd()%4); size_t len=4+(size_t)(rnd()%12);
  for(int i=0;i<na+nb;i++){ struct op *o=&O[i]; dispatch_io_t ch = i<na?A:B;
    if(i==na){ // the first channel's reads are in flight: some data, then the stop, then the second channel's reads right behind it
      char buf[64]; memset(buf,'a',sizeof buf); size_t w=(rnd()%3) ? len+(size_t)(rnd()%3) : (size_t)(rnd()%(len+3)); usleep((useconds_t)(100+rnd()%300)); src_watch(A); if(w && write(p[1],buf,w)<0){}
      { struct timespec t0,t1; long spin=(long)(rnd()%90000); clock_gettime(CLOCK_MONOTONIC,&t0); do clock_gettime(CLOCK_MONOTONIC,&t1); while((t1.tv_sec-t0.tv_sec)*1000000000l+(t1.tv_nsec-t0.tv_nsec)<spin); }      // 0-90 us: the readiness event and the stop race to the stream's queue
      dispatch_io_close(A,DISPATCH_IO_STOP); }
    dispatch_io_read(ch,0,len,hq,^(bool done, dispatch_data_t d, int e){ if(atomic_load(&o->done)) atomic_fetch_add(&o->calls_after_done,1);
      if(d) atomic_fetch_add(&o->bytes,(long)dispatch_data_get_size(d)); if(done){ atomic_store(&o->err,e); atomic_store(&o->done,1); } });
    if(rnd()%3==0) usleep(rnd()%100); }
  // the rest of the data arrives in pieces
  size_t total=(size_t)(na+nb)*len+8, sent=0; char buf[16]; memset(buf,'b',sizeof buf);
  for(int k=0; k<400 && sent<total; k++){ size_t w=1+(size_t)(rnd()%7); if(w>total-sent) w=total-sent; ssize_t r=write(p[1],buf,w); if(r>0) sent+=(size_t)r; usleep((useconds_t)(rnd()%150));
    int all=1; for(int i=na;i<na+nb;i++) if(!atomic_load(&O[i].done)) all=0; if(all) break; }
  close(p[1]);                                          // end of file for whatever still waits
  for(int i=0;i<na+nb && !viol;i++){ for(int w=0; w<5000 && !atomic_load(&O[i].done); w++) usleep(1000);
    if(!atomic_load(&O[i].done)){ fail("a read never completed (5 s after the pipe's writer had closed): iteration / operation / operations of the stopped channel",it,i,na); break; }
    if(atomic_load(&O[i].calls_after_done)) fail("a read's handler was called again after done: iteration/operation",it,i,0);
    if(i>=na && atomic_load(&O[i].err)) fail("a read of the channel that was not stopped completed with an error: iteration/operation/error",it,i,atomic_load(&O[i].err));
    if(atomic_load(&O[i].bytes)>(long)len) fail("a read delivered more than its length: iteration/operation/bytes",it,i,atomic_load(&O[i].bytes)); }
  dispatch_io_close(B,0); dispatch_release(A); dispatch_release(B);
  for(int c=0;c<2 && !viol;c++) if(dispatch_semaphore_wait(cs,dispatch_time(DISPATCH_TIME_NOW,10ll*1000000000ll))) fail("a cleanup handler never ran (10 s): iteration",it,0,0);
  SRC=NULL; close(p[0]); dispatch_sync(hq,^{}); dispatch_release(hq); dispatch_release(cq); dispatch_release(cs); free(O); return na+nb; }
// ---- the failed operation of a stopped channel with other channels' operations queued behind it (forced): a read of channel A waits
// for data, two reads of channel B are queued behind it; data arrives, the readiness source fires and the stream's handler picks A's
// read - it is held at its first step, the hold it takes on the descriptor entry, while this thread stops A; the operation then
// fails inside the handler. The reads of channel B queued behind it must still be served.
extern dispatch_queue_t _dispatch_verif_io_close_queue(dispatch_io_t channel);
static volatile void *F_CQS; static atomic_int f_arm, f_held, f_go, f_skip;
static void fcb(const volatile void *addr, unsigned size, int op, uint64_t o, uint64_t n, const char *func, int line){ (void)size;(void)o;(void)n;(void)line; src_rec(addr,op,func);
  if(addr!=F_CQS || op!=3 || strcmp(func,"_dispatch_lane_suspend") || pthread_equal(pthread_self(),main_th)) return;
  if(atomic_load(&f_arm) && atomic_fetch_sub(&f_skip,1)<=0 && atomic_exchange(&f_arm,0)){ atomic_store(&f_held,1); for(int w=0; w<20000 && !atomic_load(&f_go); w++) usleep(50); } }
static long forced_err(int it){ int p[2]; if(pipe(p)) return 0; g_it=it;
  dispatch_queue_t hq=dispatch_queue_create("h",NULL), cq=dispatch_queue_create("c",NULL); dispatch_semaphore_t cs=dispatch_semaphore_create(0);
  dispatch_io_t A=dispatch_io_create(DISPATCH_IO_STREAM,p[0],cq,^(int e){ (void)e; dispatch_semaphore_signal(cs); });
  dispatch_io_t B=dispatch_io_create(DISPATCH_IO_STREAM,p[0],cq,^(int e){ (void)e; dispatch_semaphore_signal(cs); });
  dispatch_io_set_low_water(A,1); dispatch_io_set_low_water(B,1);
  dispatch_semaphore_t s0=dispatch_semaphore_create(0); dispatch_io_barrier(A,^{ dispatch_semaphore_signal(s0); }); dispatch_semaphore_wait(s0,DISPATCH_TIME_FOREVER); dispatch_release(s0);
  F_CQS=_dispatch_verif_queue_state_addr(_dispatch_verif_io_close_queue(A)); atomic_store(&f_arm,0); atomic_store(&f_held,0); atomic_store(&f_go,0); atomic_store(&f_skip,0);
  __block _Atomic int a_part=0, a_done=0, b_done=0; __block _Atomic long b_bytes=0;
  dispatch_io_read(A,0,8,hq,^(bool done, dispatch_data_t d, int e){ (void)e; if(d && dispatch_data_get_size(d) && !done) atomic_store(&a_part,1); if(done) atomic_store(&a_done,1); });
  for(int k=0;k<2;k++) dispatch_io_read(B,0,4,hq,^(bool done, dispatch_data_t d, int e){ (void)e; if(d) atomic_fetch_add(&b_bytes,(long)dispatch_data_get_size(d)); if(done) atomic_fetch_add(&b_done,1); });
  usleep(3000);                                       // all three reads are queued on the stream, the first one waits for data (readiness source armed)
  src_watch(A);
  _dispatch_verif_atomic_cb=fcb; atomic_store(&f_arm,1);           // the next hold a worker takes on the entry is the handler, run by the fired source, picking A's read
  if(write(p[1],"0123",4)!=4) return 0;
  for(int w=0; w<4000 && !atomic_load(&f_held); w++) usleep(50);
  dispatch_io_close(A,DISPATCH_IO_STOP); atomic_store(&f_go,1); usleep(300); _dispatch_verif_atomic_cb=cb; atomic_store(&f_arm,0);
  if(getenv("REARM_DEBUG")) fprintf(stderr,"forced: held=%d a_part=%d a_done=%d b_done=%d\n",atomic_load(&f_held),atomic_load(&a_part),atomic_load(&a_done),atomic_load(&b_done));
  if(write(p[1],"456789ab",8)!=8){} usleep(500); close(p[1]);
  for(int w=0; w<3000 && atomic_load(&b_done)<2; w++) usleep(1000);
  if(atomic_load(&b_done)<2) fail("reads of a channel queued behind the read of another channel that failed when that channel was stopped were never served (3 s after their data and end of file had arrived): iteration / completed of 2 / handler was held (1) or not (0)",it,atomic_load(&b_done),atomic_load(&f_held));
  for(int w=0; w<3000 && !atomic_load(&a_done); w++) usleep(1000);
  if(!viol && !atomic_load(&a_done)) fail("the read of the stopped channel never completed: iteration",it,0,0);
  dispatch_io_close(B,0); dispatch_release(A); dispatch_release(B);
  for(int c=0;c<2 && !viol;c++) if(dispatch_semaphore_wait(cs,dispatch_time(DISPATCH_TIME_NOW,10ll*1000000000ll))) fail("a cleanup handler never ran (10 s) after the forced failure: iteration",it,0,0);
  SRC=NULL; close(p[0]); dispatch_sync(hq,^{}); dispatch_release(hq); dispatch_release(cq); dispatch_release(cs); return 3; }
// ---- two requests for the stream's handler (forced): A's first read completes with data while a second read of A is queued, so the
// handler asks to be run again; the handler is held just before that (at the hold it takes for the delivery) while this thread stops
// A - which removes the queued read - and schedules reads of B: the first of them finds the list empty and asks for the handler too.
// Both requests then meet an empty pipe; the readiness source may be armed once.
// variant (idle = 1): only ONE read of B is scheduled; the first of the two handler requests meets the empty pipe and is held just
// before it arms the source, four bytes arrive, it goes on; the second request reads them and completes the read - the list is empty
// while the source is armed (no event will come: the data is gone). The teardown cancels and resumes the source: it must have been
// suspended by then (F35).
extern void (*_dispatch_verif_yield_cb)(const volatile void *addr, const char *func, int line);
static atomic_int y_arm, y_held, y_go;
static void fycb(const volatile void *addr, const char *func, int line){ (void)line; if(addr!=SRC || !SRC || strcmp(func,"_dispatch_lane_resume") || pthread_equal(pthread_self(),main_th)) return;
  if(atomic_exchange(&y_arm,0)){ atomic_store(&y_held,1); for(int w=0; w<20000 && !atomic_load(&y_go); w++) usleep(50); } }
static long forced_twice(int it, int idle){ int p[2]; if(pipe(p)) return 0; g_it=it;
  dispatch_queue_t hq=dispatch_queue_create("h",NULL), cq=dispatch_queue_create("c",NULL); dispatch_semaphore_t cs=dispatch_semaphore_create(0);
  dispatch_io_t A=dispatch_io_create(DISPATCH_IO_STREAM,p[0],cq,^(int e){ (void)e; dispatch_semaphore_signal(cs); });
  dispatch_io_t B=dispatch_io_create(DISPATCH_IO_STREAM,p[0],cq,^(int e){ (void)e; dispatch_semaphore_signal(cs); });
  dispatch_io_set_low_water(A,1); dispatch_io_set_low_water(B,1);
  dispatch_semaphore_t s0=dispatch_semaphore_create(0); dispatch_io_barrier(A,^{ dispatch_semaphore_signal(s0); }); dispatch_semaphore_wait(s0,DISPATCH_TIME_FOREVER); dispatch_release(s0);
  F_CQS=_dispatch_verif_queue_state_addr(_dispatch_verif_io_close_queue(A)); atomic_store(&f_arm,0); atomic_store(&f_held,0); atomic_store(&f_go,0);
  __block _Atomic int a_done=0, b_done=0;
  for(int k=0;k<2;k++) dispatch_io_read(A,0,4,hq,^(bool done, dispatch_data_t d, int e){ (void)d;(void)e; if(done) atomic_fetch_add(&a_done,1); });
  usleep(3000); src_watch(A);
  atomic_store(&f_skip,1); _dispatch_verif_atomic_cb=fcb; atomic_store(&f_arm,1);     // skip the handler's own hold, stop at the one it takes for the delivery
  if(write(p[1],"0123",4)!=4) return 0;
  for(int w=0; w<4000 && !atomic_load(&f_held); w++) usleep(50);
  dispatch_io_close(A,DISPATCH_IO_STOP); int nb = idle ? 1 : 3;
  for(int k=0;k<nb;k++) dispatch_io_read(B,0,4,hq,^(bool done, dispatch_data_t d, int e){ (void)d;(void)e; if(done) atomic_fetch_add(&b_done,1); });
  if(idle){ atomic_store(&y_held,0); atomic_store(&y_go,0); _dispatch_verif_yield_cb=fycb; atomic_store(&y_arm,1); }
  usleep(2000); atomic_store(&f_go,1);
  if(idle){ for(int w=0; w<4000 && !atomic_load(&y_held); w++) usleep(50);       // the first request is about to arm the source
    if(write(p[1],"4567",4)!=4){} usleep(200); atomic_store(&y_go,1); usleep(3000); _dispatch_verif_yield_cb=0; atomic_store(&y_arm,0); }
  usleep(2000); _dispatch_verif_atomic_cb=cb; atomic_store(&f_arm,0);
  if(!idle){ if(write(p[1],"456789abcdef",12)!=12){} usleep(500); close(p[1]); }
  for(int w=0; w<3000 && atomic_load(&b_done)<nb; w++) usleep(1000);
  if(idle){ usleep(20000); close(p[1]); }
  if(atomic_load(&b_done)<nb) fail("reads scheduled right behind the stop of another channel of the descriptor were never served (3 s after their data and end of file had arrived): iteration / completed / handler was held",it,atomic_load(&b_done),atomic_load(&f_held));
  for(int w=0; w<3000 && atomic_load(&a_done)<2; w++) usleep(1000);
  dispatch_io_close(B,0); dispatch_release(A); dispatch_release(B);
  for(int c=0;c<2 && !viol;c++) if(dispatch_semaphore_wait(cs,dispatch_time(DISPATCH_TIME_NOW,10ll*1000000000ll))) fail("a cleanup handler never ran (10 s) after the forced double request: iteration",it,0,0);
  SRC=NULL; close(p[0]); dispatch_sync(hq,^{}); dispatch_release(hq); dispatch_release(cq); dispatch_release(cs); return 5; }
int main(int argc,char**argv){ seed=argc>1?strtoull(argv[1],0,0):1; int iters=argc>2?atoi(argv[2]):400; rs=seed;
  signal(SIGILL,on_crash); signal(SIGSEGV,on_crash); signal(SIGABRT,on_crash); signal(SIGBUS,on_crash); signal(SIGPIPE,SIG_IGN);
  main_th=pthread_self(); _dispatch_verif_atomic_cb=cb; long n=0; for(int i=0;i<iters && !viol;i++){ n+=iteration(i); if(i%100==0 && !viol && !getenv("REARM_SKIP_ERR")) n+=forced_err(i); if(i%100==(getenv("REARM_SKIP_ERR")?0:50) && !viol) n+=forced_twice(i,0); if(i%100==25 && !viol) n+=forced_twice(i,1); } _dispatch_verif_atomic_cb=0;
  if(viol){ printf("ORACLE VIOL seed=%llu %s\n",(unsigned long long)seed,vmsg); fflush(stdout); _exit(1); }
  printf("ORACLE ok items=%ld source_transitions=%lu\n",n,atomic_load(&ntl));
  { unsigned long k=atomic_load(&ntl); if(k>MAXT) k=MAXT; for(unsigned long i=0;i<k;i++) printf("T %d %c\n",tlog[i].it,tlog[i].k); }
  fflush(stdout); _exit(0); }
