// C06 oracle, two shapes the storm harness does not have.
// (A) an object created inactive, suspended k times (k around the capacity of the inline suspend counter), then configured with a
//     call that takes a suspension of its own while it works (dispatch_set_target_queue; for a source dispatch_source_set_event_handler_f),
//     then resumed k times, then activated. Nothing may start before the activation; after it the pending item / the timer runs.
//     The library refuses deep nesting here by a documented client crash INSIDE the configuring call; that is accepted (the history is
//     rejected, nothing is promised about it). What is not accepted: the call returns and suspensions have been forgotten (an item or a
//     timer handler runs before the resumes and the activation, or a later balanced resume traps as an over-resume).
// (B) threads blocked in dispatch_sync / dispatch_barrier_sync / dispatch_async_and_wait on a suspended (or inactive) queue receive
//     signals (handler without SA_RESTART): an interrupted wait is not a resume - their items must not start before the last resume
//     (the activation), and must all run after it.
// Each case runs in a forked child that reports its progress through a pipe.
// usage: c06_inactive <seed>
#define _GNU_SOURCE
#include <dispatch/dispatch.h>
#include <stdio.h>
#include <stdint.h>
#include <stdlib.h>
#include <string.h>
#include <unistd.h>
#include <signal.h>
#include <pthread.h>
#include <stdatomic.h>
#include <sys/wait.h>
extern void dispatch_async_and_wait(dispatch_queue_t, dispatch_block_t);
static int wfd; static void mark(char c){ if(write(wfd,&c,1)!=1){} }
static atomic_int ran; static void item(void *c){ (void)c; atomic_store(&ran,1); }
static void tick(void *c){ (void)c; atomic_store(&ran,1); }
static void child_A(int kind, int k){ // kind 0 serial queue, 1 concurrent queue, 2 timer source
  dispatch_queue_t tq=dispatch_queue_create("ia.t",NULL); dispatch_object_t o;
  if(kind<2){ o._dq=dispatch_queue_create("ia.q",dispatch_queue_attr_make_initially_inactive(kind?DISPATCH_QUEUE_CONCURRENT:DISPATCH_QUEUE_SERIAL)); }
  else { dispatch_source_t s=dispatch_source_create(DISPATCH_SOURCE_TYPE_TIMER,0,0,tq); dispatch_source_set_timer(s,dispatch_time(DISPATCH_TIME_NOW,2000000),2000000,0); o._ds=s; }
  for(int i=0;i<k;i++) dispatch_suspend(o);
  mark('s');
  if(kind<2) dispatch_set_target_queue(o,tq); else dispatch_source_set_event_handler_f(o._ds,tick);
  mark('S');
  if(kind<2) dispatch_async_f(o._dq,NULL,item);
  usleep(30000); if(atomic_load(&ran)){ mark('E'); _exit(0); }          // ran while suspended k times and inactive
  for(int i=0;i<k;i++) dispatch_resume(o);
  mark('R');
  usleep(30000); if(atomic_load(&ran)){ mark('e'); _exit(0); }          // ran while still inactive
  dispatch_activate(o);
  for(int w=0; w<3000 && !atomic_load(&ran); w++) usleep(1000);
  mark(atomic_load(&ran)?'D':'N'); _exit(0); }
static pthread_t thr[4]; static atomic_int started, early, done_cnt, released; static void on_usr1(int s){ (void)s; }
static dispatch_queue_t bq;
static void bitem(void *c){ (void)c; if(!atomic_load(&released)) atomic_fetch_add(&early,1); atomic_fetch_add(&done_cnt,1); }
static void *blocked(void *a){ long me=(long)a; atomic_fetch_add(&started,1);
  if(me%3==0) dispatch_sync_f(bq,NULL,bitem); else if(me%3==1) dispatch_barrier_sync_f(bq,NULL,bitem); else dispatch_async_and_wait(bq,^{ bitem(NULL); });
  return 0; }
static void child_B(int shape){ // 0 serial suspended twice, 1 concurrent suspended, 2 serial inactive, 3 concurrent inactive and suspended
  struct sigaction sa; memset(&sa,0,sizeof sa); sa.sa_handler=on_usr1; sigaction(SIGUSR1,&sa,0);
  int conc=shape&1, inactive=shape>=2; dispatch_queue_attr_t a=conc?DISPATCH_QUEUE_CONCURRENT:DISPATCH_QUEUE_SERIAL; if(inactive) a=dispatch_queue_attr_make_initially_inactive(a);
  bq=dispatch_queue_create("ib.q",a); int susp = shape==0?2 : shape==1?1 : shape==3?1 : 0; for(int i=0;i<susp;i++) dispatch_suspend(bq);
  for(long i=0;i<4;i++) pthread_create(&thr[i],0,blocked,(void*)i);
  while(atomic_load(&started)<4) usleep(100); usleep(5000);
  for(int r=0;r<60;r++){ for(int i=0;i<4;i++) pthread_kill(thr[i],SIGUSR1); usleep(500); }
  mark('P');
  if(atomic_load(&early) || atomic_load(&done_cnt)){ mark('E'); _exit(0); }
  for(int i=0;i<susp;i++){ if(i==susp-1 && !inactive) atomic_store(&released,1); dispatch_resume(bq); }
  if(inactive){ usleep(2000); if(atomic_load(&done_cnt)){ mark('e'); _exit(0); } atomic_store(&released,1); dispatch_activate(bq); }
  for(int w=0; w<3000 && atomic_load(&done_cnt)<4; w++) usleep(1000);
  mark(atomic_load(&done_cnt)==4 && !atomic_load(&early) ? 'D' : 'N'); for(int i=0;i<4 && atomic_load(&done_cnt)==4;i++) pthread_join(thr[i],0); _exit(0); }
static int run_child(void (*fa)(int,int), void (*fb)(int), int x, int y, char *out, int *sig){ int pf[2]; if(pipe(pf)) return -1; fflush(stdout); pid_t pid=fork();
  if(pid==0){ close(pf[0]); wfd=pf[1]; alarm(30); if(fa) fa(x,y); else fb(x); _exit(0); }
  close(pf[1]); int n=0; char c; while(n<15 && read(pf[0],&c,1)==1) out[n++]=c; out[n]=0; close(pf[0]); int st; waitpid(pid,&st,0); *sig = WIFSIGNALED(st)?WTERMSIG(st):0; return n; }
int main(int argc,char**argv){ uint64_t seed=argc>1?strtoull(argv[1],0,0):1; long items=0; char m[16]; int sig;
  static const int depth[]={1,5,31,32,61,62,63,64,65,100,127,128,200}; static const char *K[]={"serial queue","concurrent queue","timer source"};
  for(int kind=0; kind<3; kind++) for(unsigned d=0; d<sizeof depth/sizeof *depth; d++){ int k=depth[d]; if((seed+d+(unsigned)kind)%3==0 && k!=63 && k!=62 && k!=64) continue;
    run_child(child_A,NULL,kind,k,m,&sig); items++;
    const char *what=NULL;
    if(strchr(m,'E')) what="an item / timer handler ran while the object was suspended and inactive, after the configuring call returned (suspensions forgotten)";
    else if(strchr(m,'e')) what="an item / timer handler ran before dispatch_activate, after balanced resumes";
    else if(sig && strchr(m,'S')) what="the library trapped after the configuring call had returned (a balanced resume taken for an over-resume, or corrupt state)";
    else if(sig && !strchr(m,'s')) what="the library trapped while the inactive object was being suspended";
    else if(sig && k<62) what="the configuring call trapped on an inactive object with only a few suspensions";
    else if(!sig && !strchr(m,'D')) what="the pending item / the timer did not run within 3 s of the activation";
    if(what){ printf("ORACLE VIOL seed=%llu inactive %s, %d suspensions, then %s: %s (progress %s, signal %d)\n",(unsigned long long)seed,K[kind],k,kind<2?"dispatch_set_target_queue":"dispatch_source_set_event_handler_f",what,m,sig); return 1; } }
  for(int rep=0; rep<2; rep++) for(int shape=0; shape<4; shape++){ run_child(NULL,child_B,shape,0,m,&sig); items++;
    const char *what=NULL;
    if(strchr(m,'E')) what="an item of a blocked synchronous caller ran while the queue was still suspended / inactive, after the caller's wait had been interrupted by a signal";
    else if(strchr(m,'e')) what="an item ran after the resumes and before the activation";
    else if(sig) what="the library trapped";
    else if(!strchr(m,'D')) what="the blocked callers' items did not all run (after the last resume / the activation) within 3 s";
    if(what){ printf("ORACLE VIOL seed=%llu blocked dispatch_sync / barrier_sync / async_and_wait callers under signals, queue shape %d (0 serial suspended twice, 1 concurrent suspended, 2 serial inactive, 3 concurrent inactive and suspended): %s (progress %s, signal %d)\n",(unsigned long long)seed,shape,what,m,sig); return 1; } }
  printf("ORACLE ok items=%ld\n",items); return 0; }
