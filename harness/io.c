// C14 L-fn harness for a dispatch I/O stream read: read() on the pipe is interposed to cap what each call returns
// and to log (requested length, result); a writer thread stages the arrival of the bytes, so the kernel itself
// produces short reads, EAGAIN and EOF. Line in:  "I <length> <low> <high> <n> <stages> | <caps>"
//   stages: comma list of chunk sizes written with a short pause between them (sum = n), writer closes afterwards
// Line out: "reads=<req>:<ret>,... calls=<done>:<size>:<err>:<hex>|..."   (ret: bytes, 0 = EOF, -11 = EAGAIN)
#define _GNU_SOURCE
#include <dispatch/dispatch.h>
#include <stdio.h>
#include <stdlib.h>
#include <string.h>
#include <unistd.h>
#include <errno.h>
#include <dlfcn.h>
#include <pthread.h>
#include <signal.h>
static int target_fd = -1; static long caps[512]; static int ncaps, kread;
static char rlog[1<<20]; static size_t rlen; static pthread_mutex_t mu = PTHREAD_MUTEX_INITIALIZER;
ssize_t read(int fd, void *buf, size_t n){
  static ssize_t (*real)(int,void*,size_t); if(!real) real = dlsym(RTLD_NEXT,"read");
  if (fd != target_fd) return real(fd,buf,n);
  pthread_mutex_lock(&mu);
  size_t want = n; long cap = kread < ncaps ? caps[kread] : 1000000000L; kread++;
  if ((long)want > cap) want = (size_t)cap;
  ssize_t r; int e; do { r = real(fd,buf,want); e = errno; } while (r < 0 && e == EINTR);
  if (rlen + 64 < sizeof rlog) rlen += (size_t)snprintf(rlog+rlen, sizeof rlog - rlen, "%s%zu:%ld", rlen?",":"", n, r < 0 ? -(long)e : (long)r);
  pthread_mutex_unlock(&mu);
  errno = e;
  return r; }
static char clog[1<<22]; static size_t clen;
struct wr { int fd; long st[64]; int nst; long n; };
static void *writer(void *c){ struct wr *w=c; long pos=0; for(int i=0;i<w->nst;i++){ usleep(1500);
    unsigned char b[4096]; long k=w->st[i]; while(k>0){ long m=k>4096?4096:k; for(long j=0;j<m;j++) b[j]=(unsigned char)((pos+j)%251); if(write(w->fd,b,(size_t)m)!=m) break; pos+=m; k-=m; } }
  usleep(1500); close(w->fd); return NULL; }
void _dispatch_iocntl(uint32_t param, uint64_t value);
int main(void){
  static char line[1<<16];
  dispatch_queue_t q = dispatch_queue_create("h", NULL);
  signal(SIGPIPE, SIG_IGN);
  while (fgets(line,sizeof line,stdin)){
    char *bar = strchr(line,'|'); if(bar){ *bar=0; bar++; }
    char *t = strtok(line," \n"); if(!t||strcmp(t,"I")){ puts("bad-op"); continue; }
    long length = atol(strtok(NULL," \n")), low = atol(strtok(NULL," \n")), high = atol(strtok(NULL," \n")); long n = atol(strtok(NULL," \n"));
    char *stages = strtok(NULL," \n");
    char *cp = strtok(NULL," \n"); _dispatch_iocntl(1 /* DISPATCH_IOCNTL_CHUNK_PAGES */, cp ? (uint64_t)atol(cp) : 256);
    struct wr w; memset(&w,0,sizeof w); w.n=n; { char *sv=NULL; for(char *s=strtok_r(stages,",",&sv); s && w.nst<64; s=strtok_r(NULL,",",&sv)) w.st[w.nst++]=atol(s); }
    ncaps = 0; kread = 0; rlen = 0; clen = 0; rlog[0]=0; clog[0]=0;
    if(bar){ char *sv=NULL; for(char *s=strtok_r(bar," \n",&sv); s && ncaps<512; s=strtok_r(NULL," \n",&sv)) caps[ncaps++]=atol(s); }
    int p[2]; if (pipe(p)) return 2;
    w.fd=p[1]; pthread_t th;
    if(w.nst==1 && w.st[0]==n && n<=32768){ // everything is there before the channel is created, writer closed: no EAGAIN possible
      unsigned char *pay = malloc((size_t)n+1); for (long i=0;i<n;i++) pay[i]=(unsigned char)(i%251);
      if (n) { if (write(p[1],pay,(size_t)n) != n) return 3; } close(p[1]); free(pay); w.nst=0; }
    target_fd = p[0];
    dispatch_semaphore_t s = dispatch_semaphore_create(0);
    dispatch_semaphore_t cl = dispatch_semaphore_create(0);
    dispatch_io_t ch = dispatch_io_create(DISPATCH_IO_STREAM, p[0], q, ^(int e){ (void)e; dispatch_semaphore_signal(cl); });
    if (high >= 0) dispatch_io_set_high_water(ch,(size_t)high);
    if (low >= 0) dispatch_io_set_low_water(ch,(size_t)low);
    dispatch_io_read(ch, 0, length < 0 ? SIZE_MAX : (size_t)length, q, ^(bool done, dispatch_data_t d, int err){
      size_t sz = d ? dispatch_data_get_size(d) : 0;
      if (clen + 64 >= sizeof clog) { if (done) dispatch_semaphore_signal(s); return; }
      clen += (size_t)snprintf(clog+clen, sizeof clog - clen, "%s%d:%zu:%d:", clen?"|":"", done?1:0, sz, err);
      if (!sz) clen += (size_t)snprintf(clog+clen, sizeof clog - clen, "-");
      else { const void *b; size_t m; dispatch_data_t mp = dispatch_data_create_map(d,&b,&m);
        for (size_t i=0;i<m && clen+4<sizeof clog;i++) clen += (size_t)snprintf(clog+clen, sizeof clog - clen, "%02x", ((const unsigned char*)b)[i]);
        dispatch_release(mp); }
      if (done) dispatch_semaphore_signal(s); });
    if(w.nst) pthread_create(&th,NULL,writer,&w);
    if (dispatch_semaphore_wait(s, dispatch_time(DISPATCH_TIME_NOW, 20ll*1000000000ll))) { printf("STUCK reads=%s calls=%s\n", rlog, clog); fflush(stdout); _exit(3); }
    dispatch_io_close(ch, 0); dispatch_release(ch);
    dispatch_semaphore_wait(cl, dispatch_time(DISPATCH_TIME_NOW, 20ll*1000000000ll));
    pthread_mutex_lock(&mu); target_fd = -1; pthread_mutex_unlock(&mu);
    close(p[0]);                       // a writer still pushing unread bytes gets EPIPE and stops
    if(w.nst) pthread_join(th,NULL);
    printf("reads=%s calls=%s\n", rlog, clog); fflush(stdout);
  }
  return 0; }
